#!/usr/bin/env python3
"""tools/modelmut.py [--n N] [--seed S] [--only FILE] — how sensitive is the execution tie?

Mutates the *model* (one small change per mutant: a comparison made strict / non-strict, `&&` for `||`, a dropped
`negb`, a constant off by one), rebuilds model + corr in a scratch copy, and runs the correspondence (every corpus
script, generated histories, the pure-function jobs) of the *unchanged* implementation against the mutated model.  A
mutant that no compared step distinguishes from the real model marks a behaviour on which model and code could differ
unnoticed: the output lists the surviving mutants with file and line.  A development aid (results: modelmut/results.json);
not a registered check; decides nothing."""
import argparse, json, os, random, re, shutil, subprocess, sys
from multiprocessing import Pool

ROOT = os.path.dirname(os.path.dirname(os.path.abspath(__file__)))
SCRATCH = "/tmp/fm-modelmut"
FILES = ["Base.v", "Balance.v", "Fees.v", "Registry.v", "Market.v", "Queries.v", "World.v", "Reentry.v", "Wire.v"]
ORDER = ["model/Base.v", "model/Balance.v", "model/Fees.v", "model/Registry.v", "model/Market.v", "model/Queries.v", "model/World.v",
         "model/Totals.v", "model/Reentry.v", "model/Wire.v", "corr/CheckStep.v"]

RULES = [
    (r"<=\?", "<?"), (r"(?<![<=])<\?", "<=?"), (r"(?<![<>])=\?", "<=?"),
    (r"&&", "||"), (r"\|\|", "&&"),
    (r"negb ", ""),
    (r"Nat\.eqb", "Nat.leb"),
]
CONST = re.compile(r"(?<![\w.])(\d{2,})(?![\w.])")


def strip_comments_mask(text):
    """positions inside (* ... *) comments (nested)"""
    mask = [False] * len(text)
    depth, i = 0, 0
    while i < len(text):
        if text.startswith("(*", i):
            depth += 1
            mask[i] = mask[i + 1] = True
            i += 2
            continue
        if text.startswith("*)", i) and depth:
            mask[i] = mask[i + 1] = True
            depth -= 1
            i += 2
            continue
        if depth:
            mask[i] = True
        i += 1
    return mask


def sites():
    out = []
    for f in FILES:
        text = open(os.path.join(ROOT, "coq", "model", f)).read()
        cm = strip_comments_mask(text)
        for pat, rep in RULES:
            for m in re.finditer(pat, text):
                if not cm[m.start()]:
                    out.append((f, m.start(), m.end(), rep, "%s -> %s" % (m.group(0).strip(), rep or "(dropped)")))
        for m in CONST.finditer(text):
            if cm[m.start()]:
                continue
            v = int(m.group(1))
            line = text[text.rfind("\n", 0, m.start()) + 1:text.find("\n", m.start())]
            if "Definition" in line or ":=" in line or "?" in line or "if " in line:
                for d in (1, -1):
                    out.append((f, m.start(), m.end(), str(v + d), "%d -> %d" % (v, v + d)))
    return out


def build(mdir):
    for rel in ORDER:
        r = subprocess.run(["coqc", "-q", "-noglob", "-Q", os.path.join(mdir, "model"), "FM", "-Q", os.path.join(mdir, "corr"), "FM", os.path.join(mdir, rel)],
                           capture_output=True, text=True, timeout=900)
        if r.returncode != 0:
            return False, r.stderr[-300:]
    return True, ""


def main():
    ap = argparse.ArgumentParser()
    ap.add_argument("--n", type=int, default=60)
    ap.add_argument("--seed", type=int, default=1)
    ap.add_argument("--hist", type=int, default=16)
    ap.add_argument("--only", default=None)
    ap.add_argument("--skip", default=None, help="a results file: skip the mutants it already contains")
    ap.add_argument("--lines", default=None, help="comma-separated File.v:line list: every mutation site on those lines")
    a = ap.parse_args()
    all_sites = [s for s in sites() if a.only is None or s[0] == a.only]
    rnd = random.Random(a.seed)
    if a.lines:
        want = set(a.lines.split(","))
        texts = {f: open(os.path.join(ROOT, "coq", "model", f)).read() for f in FILES}
        chosen = [s for s in all_sites if "%s:%d" % (s[0], texts[s[0]].count("\n", 0, s[1]) + 1) in want]
    else:
        if a.skip:
            texts = {f: open(os.path.join(ROOT, "coq", "model", f)).read() for f in FILES}
            done = set((m["file"], m["line"], m["mutation"]) for m in json.load(open(a.skip))["mutants"])
            all_sites = [s for s in all_sites if (s[0], texts[s[0]].count("\n", 0, s[1]) + 1, s[4]) not in done]
        chosen = rnd.sample(all_sites, min(a.n, len(all_sites)))
    shutil.rmtree(SCRATCH, ignore_errors=True)
    results = []
    sys.path.insert(0, os.path.join(ROOT, "tools"))
    binary = os.path.join(ROOT, ".cache", "target", "release", "fm-harness")
    for idx, (f, st, en, rep, what) in enumerate(chosen):
        mdir = os.path.join(SCRATCH, "m%d" % idx)
        os.makedirs(mdir)
        for sub in ("model", "corr"):
            shutil.copytree(os.path.join(ROOT, "coq", sub), os.path.join(mdir, sub), ignore=shutil.ignore_patterns("*.vo*", "*.glob", ".*.aux"))
        p = os.path.join(mdir, "model", f)
        text = open(p).read()
        line_no = text.count("\n", 0, st) + 1
        line = text[text.rfind("\n", 0, st) + 1:text.find("\n", st)].strip()
        open(p, "w").write(text[:st] + rep + text[en:])
        ok, err = build(mdir)
        rec = {"file": f, "line": line_no, "mutation": what, "source": line[:160]}
        if not ok:
            rec["status"] = "does-not-compile"
            results.append(rec)
            print("%3d %-12s %4d %-22s does not compile" % (idx, f, line_no, what), flush=True)
            shutil.rmtree(mdir, ignore_errors=True)
            continue
        # run the correspondence in a child interpreter so that FM_COQ_DIR is picked up by the workers
        code = r'''
import json, os, sys
sys.path.insert(0, %r)
from multiprocessing import Pool
from fm import corpus, pure, runner
out = %r
jobs = [{"name": n, "kind": "corpus", "outdir": out, "binary": %r} for n in corpus.SCRIPTS]
for i in range(%d):
    jobs.append({"name": "g%%d" %% i, "kind": "gen", "seed": 100003 + i, "n_ops": 40, "probes": 2, "fault_prob": 0.3, "q_every": 10, "outdir": out, "binary": %r})
for i in range(4):
    jobs.append({"name": "rg%%d" %% i, "kind": "gen", "seed": 150003 + i, "n_ops": 40, "probes": 1, "fault_prob": 0.3, "q_every": 0, "outdir": out, "binary": %r, "flags": ["reentrant", "no_drain"]})
pj = [{"name": "p%%d" %% i, "seed": 7919 + i, "n": 300, "outdir": out, "binary": %r} for i in range(6)]
with Pool(16) as p:
    r1 = p.map_async(runner.run_job, jobs, chunksize=1)
    r2 = p.map_async(pure.run_pure, pj, chunksize=1)
    res = r1.get() + r2.get()
hit = [(j["name"], sorted(j["masks"].items())[:2]) for j in res if j.get("masks")]
bad = [j["name"] for j in res if j.get("error") or j.get("coq_rc", 0) != 0]
print(json.dumps({"detected_by": hit[:6], "n_detecting": len(hit), "errors": bad[:5]}))
''' % (os.path.join(ROOT, "tools"), mdir, binary, a.hist, binary, binary, binary)
        env = dict(os.environ, FM_COQ_DIR=mdir)
        r = subprocess.run([sys.executable, "-c", code], capture_output=True, text=True, env=env, timeout=3600)
        try:
            info = json.loads(r.stdout.strip().splitlines()[-1])
        except Exception:
            info = {"detected_by": [], "n_detecting": 0, "errors": ["driver: " + (r.stderr or r.stdout)[-300:]]}
        rec.update(info)
        rec["status"] = "detected" if info["n_detecting"] or info["errors"] else "SURVIVED"
        results.append(rec)
        print("%3d %-12s %4d %-22s %s %s" % (idx, f, line_no, what, rec["status"], (info["detected_by"][:1] or info["errors"][:1] or "")), flush=True)
        shutil.rmtree(mdir, ignore_errors=True)
    os.makedirs(os.path.join(ROOT, "modelmut"), exist_ok=True)
    summary = {"sites_total": len(all_sites), "mutants": len(results),
               "detected": sum(r["status"] == "detected" for r in results),
               "survived": sum(r["status"] == "SURVIVED" for r in results),
               "invalid": sum(r["status"] == "does-not-compile" for r in results), "seed": a.seed}
    json.dump({"summary": summary, "mutants": results}, open(os.path.join(ROOT, "modelmut", "results-%s.json" % ("lines" if a.lines else "seed%d" % a.seed)), "w"), indent=1)
    print(json.dumps(summary))
    shutil.rmtree(SCRATCH, ignore_errors=True)


if __name__ == "__main__":
    main()
