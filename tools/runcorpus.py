#!/usr/bin/env python3
"""dev tool: tools/runcorpus.py <script>...  — run corpus scripts on the real code + model, print outcomes, findings, mismatch masks."""
import os, sys, json, tempfile
sys.path.insert(0, os.path.join(os.path.dirname(os.path.abspath(__file__))))
from fm import runner, props as P
import subprocess
subprocess.run([os.path.join(os.path.dirname(os.path.dirname(os.path.abspath(__file__))), 'check'), 'setup'], capture_output=True)
out = tempfile.mkdtemp(prefix="fmrc")
for name in sys.argv[1:]:
    r = runner.run_job({"name": name, "kind": "corpus", "outdir": out, "keep_ops": True})
    if r["error"]:
        print(r["error"]); continue
    for i, d in enumerate(r["desc"]):
        op = r["ops"][i] if r["ops"] else {}
        m = r["masks"].get(i, 0)
        print("%3d %-8s %-22s %s%s" % (i, d["o"], d["k"], json.dumps(op.get("msg", op))[:110], ("  MISMATCH " + ",".join(P.names_of(m, P.COMPONENT_NAMES))) if m else ""))
    for f in r["findings"]:
        print("FINDING", f["prop"], f["clause"], f["step"], f["detail"][:200], f.get("sig"))
    print(name, "steps", r["n_steps"], "coq_rc", r["coq_rc"], r["coq_err"][-500:], "skipped", r["skipped"], "masks", r["masks"])
import shutil; shutil.rmtree(out, ignore_errors=True)
