#!/usr/bin/env python3
"""tools/seedall.py [names...] — apply every archived seeded change to /repo in turn, run the check of the property it breaks
(quick tier), record the verdict in seeded/<name>/meta.json (key detected_by_final) and restore /repo.  Not a registered check."""
import json, os, subprocess, sys
ROOT = "/verif"
names = sys.argv[1:] or sorted(os.listdir(os.path.join(ROOT, "seeded")))
st = subprocess.run(["git", "-C", "/repo", "status", "--short"], capture_output=True, text=True).stdout
if any(not l.startswith("??") for l in st.splitlines()):
    sys.exit("/repo not clean")
rows = []
for n in names:
    d = os.path.join(ROOT, "seeded", n)
    meta = json.load(open(os.path.join(d, "meta.json")))
    prop = meta["property"]
    subprocess.run(["git", "-C", "/repo", "apply", os.path.join(d, "patch.diff")], check=True)
    try:
        r = subprocess.run(["./check", prop, "--tier", "quick"], cwd=ROOT, capture_output=True, text=True)
    finally:
        subprocess.run(["git", "-C", "/repo", "checkout", "--", "."], check=True)
    lines = [l for l in r.stdout.splitlines() if l.startswith("VIOLATION") or l.startswith("  #")]
    viol = [l for l in lines if l.startswith("VIOLATION")]
    with_input = [l for l in viol if "no-failing-input-found" not in l]
    verdict = {"exit": r.returncode, "violations": len(viol), "with_failing_input": len(with_input),
               "first": (lines[0][:200] if lines else ""), "what": (lines[1].strip()[:200] if len(lines) > 1 else "")}
    meta["detected_by_final"] = verdict
    json.dump(meta, open(os.path.join(d, "meta.json"), "w"), indent=1)
    rows.append((n, prop, verdict))
    print(n, prop, verdict["exit"], verdict["violations"], verdict["with_failing_input"], verdict["what"][:120], flush=True)
