#!/bin/bash
# usage: tools/seedrun.sh <seed name> <checks...> : apply an archived seeded change to /repo, run checks (quick), restore /repo
N=$1; shift
cd /repo; git status --short | grep -v '^??' && { echo "/repo not clean"; exit 2; }
git apply /verif/seeded/$N/patch.diff || exit 2
cd /verif
for c in "$@"; do echo "== $N: check $c"; ./check $c --tier quick 2>&1 | grep -E "VIOLATION|KNOWN|#" | head -8; done
git -C /repo checkout -- .
