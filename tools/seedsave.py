#!/usr/bin/env python3
"""tools/seedsave.py <PROP> <name> '<needs>' '<detected>'  — archive a confirmed seeded change under seeded/<name>/ and drop its scratch worktree."""
import json, os, shutil, subprocess, sys
prop, name, needs, detected = sys.argv[1:5]
src = "/tmp/seed_%s_out" % prop
dst = "/verif/seeded/%s" % name
os.makedirs(dst, exist_ok=True)
for f in ("patch.diff", "demo.diff", "README.md"):
    shutil.copy(os.path.join(src, f), os.path.join(dst, f))
meta = {"property": prop[:3], "needs_to_manifest": needs,
        "confirmed": "tools/seedtest.sh %s: in a scratch worktree of /repo the demonstration (demo.diff) passes on the original code and fails with patch.diff; the 30 original tests pass with patch.diff" % prop,
        "ran": "git -C /repo apply patch.diff; ./check <ids> --tier quick; git -C /repo checkout -- .",
        "detected_by": detected}
json.dump(meta, open(os.path.join(dst, "meta.json"), "w"), indent=1)
subprocess.run(["git", "-C", "/repo", "worktree", "remove", "--force", "/tmp/seed_%s" % prop])
shutil.rmtree(src, ignore_errors=True)
print("saved", dst)
