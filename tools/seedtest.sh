#!/bin/bash
# usage: tools/seedtest.sh <PROP> [props to check...]   (verifies a seeded change delivered in /tmp/seed_<PROP>_out, then runs checks against it)
# 1. confirm in the scratch worktree: demo passes without the change, fails with it, the 30 original tests pass with it
# 2. apply to /repo, run the listed checks (default: the property itself), restore /repo
P=$1; shift; CHECKS=${@:-$P}
WT=/tmp/seed_$P; OUT=/tmp/seed_${P}_out
export CARGO_TARGET_DIR=$WT/target CARGO_NET_OFFLINE=true
cd $WT || exit 2
git reset -q --hard; git clean -qfd -e target
git apply $OUT/demo.diff || { echo "demo.diff does not apply"; exit 2; }
echo "== demo without change"; cargo test --workspace --offline --no-fail-fast 2>&1 | grep -E "^test result|FAILED|failed|panicked" | head -20
git apply $OUT/patch.diff || { echo "patch.diff does not apply"; exit 2; }
echo "== demo with change"; cargo test --workspace --offline --no-fail-fast 2>&1 | grep -E "^test result|^test .*FAILED|panicked" | head -20
cd /repo; git status --short | grep -v '^??' && { echo "/repo not clean"; exit 2; }
git apply $OUT/patch.diff || exit 2
cd /verif
for c in $CHECKS; do echo "== check $c"; ./check $c --tier quick 2>&1 | head -12; echo "rc=$?"; done
git -C /repo checkout -- .
git -C /repo status --short
